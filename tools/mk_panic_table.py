#!/usr/bin/env python3
"""Maintenance aid (never run by a check): (re)write tables/panic_sites.json and tables/loops.json from the sites the
C04 rules leave undischarged on /repo, attaching the reviewer's reason by function.  A site whose function has no
reason below is printed and NOT added — it has to be read first."""
import sys, re, json, os
sys.path.insert(0, os.path.dirname(os.path.dirname(os.path.abspath(__file__))))
from engine import build, facts
from props import C04

URI_INV = "type invariant of %s (R-WHO %s:writers): %s"
RS = "9 <= module_start < path_start <= bytes.len(), the bytes before module_start end in '/', the bytes before path_start end in '/'"
HS = "scheme.len()+3 <= path_idx <= uri.len()"

REASONS = [
    # (function regex, kind regex, reason[, guard regexes that must dominate the site[, operand-shape regex]])
    (r"^<crypto::keys::KeyIdentifier as std::str::FromStr>::from_str$", r".",
     "value.len() == 40 and is_ascii() are checked first: exactly 20 two-byte chunks, so pos < 20 and each chunk is valid UTF-8",
     [r"^40 == str::len\(%1\)$", r"^str::is_ascii\(%1\)$"]),
    (r"^<repository::resources::chain::OwnedChain<T> as std::iter::FromIterator<T>>::from_iter$", r"call:unwrap",
     "inside `if let Some(..) = res.last()`: res is non-empty, last_mut() is Some",
     [r"^discr\(Option::map\(slice::last\(.*\) in \{1\}$"]),
    (r"^<repository::resources::ipres::Prefix as bcder::encode::PrimitiveContent>::write_encoded$", r"call:index",
     "len <= 128 (Prefix::new asserts it; R-WHO ipres::Prefix:writers), so len/8 <= 16 = to_bytes().len()", [], r"end: \(Div\("),
    (r"^<repository::resources::ipres::Prefix as bcder::encode::PrimitiveContent>::write_encoded$", r"call:index",
     "len <= 128 and len is not a multiple of 8 on this branch, so len <= 127 and len/8 + 1 <= 16 = to_bytes().len()",
     [r"^!num::is_multiple_of\(self\.len, 8\)$"], r"end: \(AddWithOverflow\("),
    (r"^<repository::x509::Serial as bcder::encode::PrimitiveContent>::(encoded_len|write_encoded)$", r".",
     "Serial::start() returns an index <= 19 < 20"),
    (r"^<repository::x509::Serial as std::convert::From<u(64|128)>>::from$", r"call:unwrap",
     "to_be_bytes() of a primitive unsigned integer yields 1..=16 octets: non-empty, at most 20, and the 20-octet array's first octet stays 0",
     [], None, [], r"^<repository::x509::Serial as std::convert::From<u(8|16|32|64|128|size)>>::from$"),
    (r"^<repository::x509::Serial as std::str::FromStr>::from_str$", r"assert:Overflow:Sub",
     "inside the match arm '0'..='9': ch as u8 >= b'0'", [r"^48 <= "]),
    (r"^<repository::x509::Time as std::ops::(Add|Sub)<chrono::TimeDelta>>::(add|sub)$", r".",
     "operator on a caller-supplied duration: overflow of chrono's date range is the documented precondition of the std operator; "
     "not reachable from decoded data alone"),
    (r"^<resources::addr::Prefix as std::cmp::Ord>::cmp$", r"assert:Overflow:Shr",
     "min(len, len') is 128 only when both lengths are 128, which the equal-length early return excludes (C13 R-PANIC)",
     [r"^Prefix::len\(%2\) != Prefix::len\(self\)$"]),
    (r"^resources::addr::Prefix::covers$", r"assert:Overflow:Shr",
     "the shift by self.len() is reached only after the len() == 0 / 128 special cases were handled (C13 R-PANIC addr.rs:u128-shift-sites)",
     [r"^Prefix::len\(self\) <= Prefix::len\(%2\)$"]),
    (r"^<resources::addr::Prefix as std::convert::From<repository::roa::FriendlyRoaIpAddress>>::from$", r"call:expect",
     "FriendlyRoaIpAddress is built only by the ROA iterator from addresses whose length was checked against the family at "
     "capture time (RoaIpAddress::skip_opt_in) and whose host bits Prefix::new cleared (Addr::to_min)", [], None,
     [("repository::roa::RoaIpAddress::skip_opt_in", r"^Gt\(Prefix::addr_len\(.*\.prefix\), AddressFamily::max_addr_len\(%2\)\)$")]),
    (r"^<resources::asn::Asn as std::ops::Add<u32>>::add$", r"call:unwrap",
     "operator with a caller-supplied addend; the only in-crate use (AsBlockIter) adds within min..=max of a decoded range"),
    (r"^<uri::Https as std::cmp::PartialEq>::eq$", r".",
     "`other` is sliced at self.path_idx only after path_idx equality was established; " + URI_INV % ("Https", "uri::Https", HS),
     [r"^%2\.path_idx == self\.path_idx$"], r"^%2\.uri , .*self\.path_idx"),
    (r"^<uri::Https as ", r".", URI_INV % ("Https", "uri::Https", HS)),
    (r"^uri::Https::parent$", r".",
     URI_INV % ("Https", "uri::Https", HS) + "; the last byte is stripped only after ends_with('/')", [r"^str::ends_with\(Https::path\(self\), 47\)$"],
     r"str::len\(Https::path\(self\)\)"),
    (r"^uri::Https::", r".", URI_INV % ("Https", "uri::Https", HS) + "; an rfind index is < path.len()"),
    (r"^<uri::Rsync as std::cmp::PartialEq<T>>::eq$", r".",
     "`other` is sliced at self.module_start only after other.len() == self.bytes.len() was established; " + URI_INV % ("Rsync", "uri::Rsync", RS),
     [r"^Bytes::len\(self\.bytes\) == slice::len\(%2\)$"], r"^%2 , "),
    (r"^<uri::Rsync as ", r".", URI_INV % ("Rsync", "uri::Rsync", RS)),
    (r"^uri::Rsync::from_bytes$", r"call:index",
     "bytes start with the 8-byte scheme (starts_with_ignore_case is checked before slicing)",
     [r"^uri::starts_with_ignore_case\(%1, b'rsync://'\)$"]),
    (r"^uri::Rsync::from_bytes$", r".",
     "authority and module are lengths of sub-slices of bytes, so 9 + authority + module + 1 <= bytes.len() + 2"),
    (r"^uri::Rsync::parent$", r".",
     URI_INV % ("Rsync", "uri::Rsync", RS) + "; the last byte is stripped only after ends_with('/')", [r"^str::ends_with\(Rsync::path\(self\), 47\)$"],
     r"str::len\(Rsync::path\(self\)\)"),
    (r"^uri::Rsync::relative_to$", r".",
     "other's last byte is stripped only after ends_with('/')", [r"^str::ends_with\(Rsync::path\(%2\), 47\)$"], r"SubWithOverflow\(str::len\(Rsync::path\(%2\)\), 1\)"),
    (r"^uri::Rsync::relative_to$", r".",
     "self.path() starts with other_path and is longer than it, so other_path.len() and other_path.len() + 1 are in bounds",
     [r"^str::starts_with\(Rsync::path\(self\), \$\)$", r"^str::len\(\$\) != str::len\(Rsync::path\(self\)\)$"]),
    (r"^uri::Rsync::", r".", URI_INV % ("Rsync", "uri::Rsync", RS) + "; an rfind index is < path.len()"),
    (r"^ca::idexchange::\w+::to_xml_(string|vec)$|^ca::(provisioning|publication)::Message::to_xml_(bytes|string)$", r"call:unwrap",
     "writing XML into a Vec<u8> cannot fail (io::Write for Vec is infallible) and the writer emits only UTF-8 (escaped text, "
     "ASCII names; C11 R-TAB)"),
    (r"^ca::provisioning::IssuanceResponse::decode$", r"call:unwrap", "pop() follows the check issued_certs.len() == 1",
     [r"^1 == Vec::len\(.*issued_certs\)$"]),
    (r"^ca::publication::(QueryPdu::decode_opt|Reply::decode)$", r"call:unwrap",
     "pdu_type is set by the element closure before it can return Ok; the unwrap is reached only when take_opt_element returned Some",
     [r"^discr\(Try::branch\(Content::take_opt_element\(.*↓Continue\.0\) in \{1\}$"]),
    (r"^ca::publication::Base64::to_bytes$", r"call:unwrap",
     "Base64 is created by from_content (encoding bytes); the XML decoder decodes the text first and re-encodes it. Only the serde "
     "Deserialize impl stores unchecked text, which is not a decoding entry point of this property"),
    (r"^crypto::digest::DigestAlgorithm::digest_file$", r"call:index", "Read::read returns n <= buf.len()"),
    (r"^crypto::keys::KeyIdentifier::from_content$", r".",
     "the non-contiguous path is entered only after octets.len() == 20 was checked: the segment lengths sum to 20 = res.0.len()",
     [r"^20 == OctetString::len\("]),
    (r"^crypto::keys::PublicKey::(bits|key_identifier)$", r"call:unwrap",
     "bcder's BitString::octet_slice always returns Some (bit strings are stored contiguously); a SHA-1 digest is 20 octets"),
    (r"^repository::aspa::ProviderAsSet::take_from$|^repository::manifest::ManifestContent::take_from$", r"assert:Overflow:Add",
     "usize counter of elements parsed from an in-memory buffer: bounded by the input length (aspa additionally stops at MAX_LEN)"),
    (r"^repository::manifest::ManifestContent::iter_uris$", r"call:unwrap",
     "file names passed validate_file_name at capture time ([A-Za-z0-9_-]+ '.' three letters): URI-ASCII, no '/', no dot segments, "
     "so Rsync::join cannot fail (C14)", [], None,
     [("repository::manifest::FileAndHash::<bytes::Bytes, bytes::Bytes>::skip_opt_in", r"^discr\(FileAndHash::validate_file_name\(")]),
    (r"^repository::resources::asres::AsRange::asn_count$", r"assert:Overflow:Sub",
     "min <= max for every decoded or parsed range (C03 R-GRD AsRange::parse_content / from_str)"),
    (r"^repository::resources::asres::AsBlocks::parse_cons_content$|^repository::resources::ipres::IpBlocks::parse_cons_content$", r"fnref:unwrap",
     "Option::unwrap is mapped over the items that passed take_while(is_some)"),
    (r"^repository::resources::chain::Chain::<T>::difference$", r"call:unwrap",
     "self is non-empty (is_empty early return)", [r"^!slice::is_empty\(self\)$"], r"^Option::map\(Iterator::next"),
    (r"^repository::resources::chain::Chain::<T>::difference$", r"call:unwrap",
     "previous(other.min) is taken on the branch where self.min < other.min, so other.min > 0",
     [r"^cmp\(\$\.0, Block::min\(\$↓Some\.0\)\) in \{Less\}$"], r"^Block::previous"),
    (r"^repository::resources::chain::Chain::<T>::difference$", r"call:unwrap",
     "next(other.max) is taken on a branch where a value above other.max was just observed (self.max > other.max, or self.min > other.max)",
     [r"^cmp\(\$\.[01], Block::(max|min)\(\$↓Some\.0\)\) in \{Greater\}$"], r"^Block::next"),
    (r"^repository::resources::chain::Chain::<T>::is_encompassed$", r"call:unwrap",
     "`other` is non-empty on entry (early return) and the loop returns before it would become empty",
     [r"^!slice::is_empty\(\$\)$"]),
    (r"^repository::resources::chain::Chain::<T>::trim$", r".",
     "both chains are non-empty after the two early returns; idx counts consumed items of self (<= len); next(max) is taken only "
     "when self_item.1 > other_item.max(); `res` is Err whenever the unreachable!() arm is entered (set two statements earlier)",
     [r"^!slice::is_empty\(%2\.0\)$", r"^!slice::is_empty\(self\.0\)$"]),
    (r"^repository::resources::chain::from_iter_unsorted$", r".",
     "res is non-empty on entry (called only after a block was pushed); head ranges over 1..res.len() and tail < head"),
    (r"^repository::resources::ipres::(AddressRange|Prefix)::from(_v4|_v6)?_str_sep$", r"assert:Overflow:Add",
     "sep is an index into s found by the caller (s.find(..)), so sep + 1 <= s.len()"),
    (r"^repository::resources::ipres::AddressRange::(min|max)_to_prefix$", r"assert:Overflow:Sub", "trailing_zeros() of a u128 is at most 128"),
    (r"^repository::resources::ipres::AddressRange::to_v[46]_prefixes$", r".",
     "leading/trailing bit counts are <= the width; max_allowed >= 1 when decremented (it exceeds trailing_ones >= 0); the emitted "
     "prefix lies inside start..=end, the loop breaks when it reaches end, so start + 2^same_bits <= end and same_bits < width "
     "whenever the shift executes; prefix_len = width - same_bits <= width",
     [r"^\$ <= .*Addr::to_bits\(self\.max\)"]),
    (r"^repository::resources::ipres::Prefix::new$", r"call:panic",
     "documented precondition (len <= 128), established at every caller: see the precondition:Prefix::new@... obligations"),
    (r"^repository::sigobj::SignedAttrs::encode_verify$", r"call:panic",
     "signed attributes captured from an object are shorter than the object; the 65536-byte DER form limit is the documented bound "
     "of this re-encoder (C02 R-REG encode_verify)"),
    (r"^repository::tal::Tal::read$", r"call:expect", "documented precondition on the caller-supplied path (not on the file's bytes)"),
    (r"^repository::tal::Tal::take_uri$", r"call:unwrap", "guarded by line.ends_with(b\"\\r\"): the line is non-empty",
     [r"^slice::ends_with\(\$, b'\\r'\)$"]),
    (r"^repository::x509::Serial::checked_(add|mul)_u8$", r".",
     "u16 arithmetic on u8 operands: 255*255 + 255 < 65536 and the carry (step >> 8) is at most 255"),
    (r"^repository::x509::Serial::div_assign_u8$", r".",
     "the only caller passes the constant 10 (non-zero); step < rhs <= 255 after each round, so (step << 8) + octet < 65536"),
    (r"^repository::x509::Serial::encode_dec$", r".",
     "a 20-octet unsigned number has at most 49 decimal digits, so len stays in 0..=49; a remainder of 10 is < 10"),
    (r"^repository::x509::Serial::from_slice$", r".", "s.len() is in 1..=20 after the two early returns, so res[20-len..] has exactly s.len() octets",
     [r"^!slice::is_empty\(%1\)$", r"^slice::len\(%1\) <= 20$"]),
    (r"^repository::x509::Serial::start$", r".",
     "find_map yields an index < 20 (default 19); start - 1 is taken only when the octet's top bit is set, which the type invariant "
     "excludes for index 0 (R-WHO x509::Serial:writers)"),
    (r"^repository::x509::Time::take(_opt)?_from$", r"assert:Overflow:Add", "read_two_char returns at most 99 (two decimal digits)", [], None,
     [("repository::x509::read_two_char", r"is_ascii_digit|Le\(48,|Ge\(.*, 48\)")]),
    (r"^rrdp::Hash::from_data$", r"call:unwrap", "a SHA-256 digest is 32 octets"),
    (r"^rrdp::NotificationFile::sort_and_verify_deltas$", r"assert:Overflow:Sub|call:drain",
     "offset = len - limit is computed on the branch limit < len, so it is in 1..=len", [r"^%2↓Some\.0 < Vec::len\(self\.deltas↓Ok\.0\)$"]),
    (r"^rrdp::NotificationFile::sort_and_verify_deltas$", r"call:index",
     "the list is non-empty here: it was non-empty on entry and, after the optional drain, the function returns early when "
     "nothing was retained", [r"2×^!Vec::is_empty\(self\.deltas↓Ok\.0\)$"]),
    (r"^rrdp::ProcessDelta::process$", r"call:unwrap",
     "action is set by the element closure before it can return Ok; the unwrap is reached only when take_opt_element returned Some",
     [r"^discr\(Try::branch\(Content::take_opt_element_with_limit\(.*↓Continue\.0\) in \{1\}$"]),
    (r"^rtr::pdu::Error::new$", r".",
     "documented precondition of the constructor (the PDU length must fit u32); every in-crate caller passes a PDU header or the "
     "fixed part of a payload PDU (at most 32 octets) and a literal message"),
    (r"^rtr::pdu::Error::skip_payload$", r"assert:Overflow:Sub",
     "read is at most min(remaining, 1024) because the buffer handed to `read` is cut to that length (C07 R-FLOW "
     "read-is-bounded-by-what-is-missing), so remaining - read cannot wrap"),
    (r"^rtr::state::State::new_with_serial$", r"call:unwrap", "fails only when the system clock is before 1970; not input-dependent"),
    (r"^util::base64::Xml::decode_bytes$", r"assert:BoundsCheck", "valid_up_to() < input.len() when from_utf8 fails"),
    (r"^util::hex::encode$", r".",
     "documented precondition dest.len() >= 2*src.len(), established at every caller (precondition:hex::encode@... obligations); "
     "chunks_mut(2) of an even-length slice yields 2-byte chunks; nibbles are < 16 = DIGITS.len()"),
    (r"^<repository::sigobj::StartOfValue as std::io::Write>::write$", r".",
     "pos starts at 0 and grows by min(8 - pos, buf.len()), so pos <= 8 = res.len(); both slices are cut to that minimum"),
    (r"^<util::base64::SkipWhitespace<'_> as std::io::Read>::read$", r".",
     "the copy into buf[..current_len] happens on the branch current_len < buf_len, split_at(buf_len) on the other branch "
     "(buf_len <= current_len); res sums lengths of pieces of one input string",
     [r"^slice::len\(self\.current\) < slice::len\(%2\)$|^slice::len\(%2\) <= slice::len\(self\.current\)$"]),
    (r"^rtr::pdu::RouterKey::max_key_info_size$", r".", "constant expression: u32::MAX - size_of::<RouterKeyFixed>() (a 12-byte struct)"),
    (r"^xml::encode::TextEscape::write_escaped$", r".", "idx comes from enumerate() over the same slice, so idx < s.len()"),
]
KNOWN = set()

LOOPS = [
    ("repository::manifest::FileAndHash::<bytes::Bytes, bytes::Bytes>::validate_file_name", 1, "each round drops the first byte of the name (split_first)"),
    ("repository::resources::ipres::AddressRange::to_v4_prefixes", 1, "start strictly increases by 2^same_bits >= 1 towards end; breaks when the prefix reaches end"),
    ("repository::resources::ipres::AddressRange::to_v6_prefixes", 1, "start strictly increases by 2^same_bits >= 1 towards end; breaks when the prefix reaches end"),
    ("repository::x509::Serial::encode_dec", 1, "each round divides the 160-bit number by 10 until it is zero: at most 49 rounds"),
]


def main():
    f = facts.load(build.build_facts("B"))
    dec, acc, types, reach, sites, cl = C04.analyse(f)
    # the other properties that use the same table (C09: RRDP, C11: CA-protocol XML) look at further entry points
    from engine.callgraph import CallGraph
    extra = [n for n, r in f.fns.items() if r.get("has_body") and r.get("exported") and
             (n.startswith("rrdp::") or n.startswith("<rrdp::") or n.startswith("xml::decode::"))]
    for n, r in f.fns.items():
        if r.get("has_body") and re.match(r"^<?(ca::(idexchange|provisioning|publication)|xml::decode)", n[1:] if n.startswith("<") else n):
            ins = " ".join(r["inputs"])
            if "xml::decode::" in ins or r["name"] in ("parse", "decode", "from_str", "try_from", "base64_decode", "ascii_into"):
                extra.append(n)
    extra += [n for n, r in f.fns.items() if r.get("has_body") and n.startswith("rtr::pdu::") and
              r["name"] in ("read", "try_read", "read_payload", "skip_payload", "to_payload", "read_or_close")]
    reach2, _ = C04.callback_closure(f, CallGraph(f), extra)
    seen_sites = {(s.body.name, s.bb) for s in sites}
    more = [s for s in C04.enumerate_sites(f, reach2) if (s.body.name, s.bb) not in seen_sites]
    cl = cl + C04.classify(f, more)
    rows, seen, missing = [], set(), []
    for s, rule, why in cl:
        if rule is not None:
            continue
        key = s.key()
        if key in seen:
            continue
        seen.add(key)
        if any(key.startswith(k) for k in KNOWN):
            continue
        for ent in REASONS:
            frx, krx, reason = ent[:3]
            guards = ent[3] if len(ent) > 3 else []
            srx = ent[4] if len(ent) > 4 else None
            if re.search(frx, s.fn) and re.search(krx, s.kind) and (srx is None or re.search(srx, s.shape)):
                row = {"fn": s.fn, "kind": s.kind, "shape": s.shape, "reason": reason}
                if guards:
                    for s2, r2, _ in cl:
                        if r2 is None and s2.key() == key:
                            have = C04.site_guards(f, s2)
                            for g in C04.guards_missing(guards, have):
                                print("  GUARD DOES NOT MATCH", key[:120], g, have)
                    row["guards"] = guards
                if len(ent) > 6:
                    # the reason holds for a whole family of functions (same construct, e.g. one impl per integer type)
                    row["fn_family"] = ent[6]
                if len(ent) > 5 and ent[5]:
                    row["remote"] = [{"fn": a, "guard": b} for a, b in ent[5]]
                    for a, b in ent[5]:
                        okr, whyr = C04.remote_guard_holds(f, a, b)
                        if not okr:
                            print("  REMOTE GUARD DOES NOT HOLD", a, b, whyr)
                rows.append(row)
                break
        else:
            missing.append(key)
    os.makedirs(os.path.dirname(C04.TABLE), exist_ok=True)
    with open(C04.TABLE, "w") as fh:
        json.dump({"doc": "Reviewed panic-capable sites reachable from decoders / accessors of decoded values that no C04 rule "
                          "discharges. One row per (function, construct, α-normalised operand provenance); the reason is the "
                          "reviewer's argument why the construct cannot fire. Generated by tools/mk_panic_table.py from its REASONS "
                          "list; never written by a check.", "rows": rows}, fh, indent=1, ensure_ascii=False)
    with open(C04.LOOP_TABLE, "w") as fh:
        json.dump({"doc": "Loops in decode-reachable functions that advance neither an iterator, the decoder input nor a reader, "
                          "with the reviewed termination argument.",
                   "rows": [{"fn": a, "loops": n, "reason": r} for a, n, r in LOOPS]}, fh, indent=1, ensure_ascii=False)
    print("rows", len(rows), "unreasoned", len(missing))
    for m in missing:
        print("  UNREVIEWED", m[:260])


main()
