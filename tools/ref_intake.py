#!/usr/bin/env python3
"""Intake of sub-agent behaviour-preserving refactorings: tools/ref_intake.py <PID>
Confirms (in the agent's worktree /tmp/ref-<PID>) that each patch applies and both test suites pass, stores it under
/verif/benign/<PID>-<k>/ and records which checks (if any) raise an alarm on it — every alarm here is a false alarm of ours."""
import json, os, subprocess, sys, shutil, tempfile, re, glob
pid = sys.argv[1]
ROUND2 = "--round2" in sys.argv
ROUND3 = "--round3" in sys.argv
ROUND4 = "--round4" in sys.argv
ROUND5 = "--round5" in sys.argv
wt = ("/tmp/ref5-%s" if ROUND5 else "/tmp/ref4-%s" if ROUND4 else "/tmp/ref3-%s" if ROUND3 else "/tmp/ref2-%s" if ROUND2 else "/tmp/ref-%s") % pid
env = dict(os.environ, CARGO_TARGET_DIR=wt + "/target", CARGO_NET_OFFLINE="true")


def sh(cmd, **kw):
    r = subprocess.run(cmd, shell=True, cwd=wt, env=env, capture_output=True, text=True, **kw)
    return r.returncode, r.stdout + r.stderr


for sd in sorted(glob.glob(os.path.join(wt, "ref[0-9]"))):
    k = sd[-1]
    out = "/verif/%s/%s-%s" % ("benign5" if ROUND5 else "benign4" if ROUND4 else "benign3" if ROUND3 else "benign2" if ROUND2 else "benign", pid, k)
    res = {}
    sh("git checkout -- . ; git clean -fdq -e 'ref*' -e target")
    rc, o = sh("git apply %s/patch.diff" % sd)
    res["patch_applies"] = rc == 0
    rc, o = sh("cargo test --workspace --no-fail-fast --offline 2>&1 | grep -E '^test result|FAILED|^error' | head -3", timeout=3000)
    res["suite_passes"] = "35 passed; 0 failed" in o
    rc, o = sh("cargo test --offline --all-features 2>&1 | grep -E '^test result|FAILED|^error|^warning: unused' | head -12", timeout=3000)
    res["all_features_pass"] = "224 passed; 0 failed" in o and "FAILED" not in o and "error" not in o
    sh("git checkout -- .")
    os.makedirs(out, exist_ok=True)
    for fn in ("patch.diff", "meta.json"):
        shutil.copy(os.path.join(sd, fn), os.path.join(out, fn))
    t = tempfile.mkdtemp(prefix="verif-ref-")
    alarms = {}
    try:
        subprocess.run(["rsync", "-a", "--exclude", "target", "--exclude", ".git", "/repo/", t + "/"], check=True)
        r = subprocess.run(["patch", "-s", "-p1", "-d", t, "-i", os.path.join(out, "patch.diff")], capture_output=True, text=True)
        if r.returncode == 0:
            r = subprocess.run(["/verif/check", "all"], env=dict(os.environ, VERIF_REPO=t, VERIF_EVIDENCE=t + "/.verif-evidence", VERIF_BUILD_SLOTS=os.environ.get("VERIF_BUILD_SLOTS", "8"), VERIF_CACHE_KEEP=os.environ.get("VERIF_CACHE_KEEP", "600")), capture_output=True, text=True)
            last = []
            for line in r.stdout.splitlines():
                if line.strip().startswith("violated:"):
                    last.append(line.strip()[:400])
                m = re.match(r"^VIOLATION property=(C\d+)", line)
                if m:
                    alarms.setdefault(m.group(1), []).extend(last)
                    last = []
        else:
            alarms["PATCH"] = [r.stdout[-200:]]
    finally:
        shutil.rmtree(t, ignore_errors=True)
    res["alarms"] = alarms
    meta = json.load(open(os.path.join(out, "meta.json")))
    meta["verified"] = res
    json.dump(meta, open(os.path.join(out, "meta.json"), "w"), indent=1, ensure_ascii=False)
    print("%s-%s" % (pid, k), {x: res[x] for x in ("patch_applies", "suite_passes", "all_features_pass")}, "ALARMS", json.dumps(alarms)[:1500], flush=True)
