#!/usr/bin/env python3
"""Fill the SEEDS / BENIGN tables of DESIGN.md from seeded/SUMMARY.md and benign/SUMMARY.md."""
import re, os
V = os.path.dirname(os.path.dirname(os.path.abspath(__file__)))
d = open(V + "/DESIGN.md").read()
for tag, path in (("SEEDS", "seeded/SUMMARY.md"), ("BENIGN", "benign/SUMMARY.md"), ("BENIGN2", "benign2/SUMMARY.md"), ("BENIGN3", "benign3/SUMMARY.md"), ("BENIGN4", "benign4/SUMMARY.md"), ("BENIGN5", "benign5/SUMMARY.md")):
    try:
        body = open(os.path.join(V, path)).read().strip()
    except FileNotFoundError:
        continue
    d = re.sub(r"<!-- %s-BEGIN -->.*?<!-- %s-END -->" % (tag, tag), lambda m: "<!-- %s-BEGIN -->\n%s\n<!-- %s-END -->" % (tag, body, tag), d, flags=re.S)
open(V + "/DESIGN.md", "w").write(d)
