#!/usr/bin/env python3
"""Per-property regression of the rules: tools/modcheck.py C07 [-j N] [--seeds] [--benign] [--corpus benign4] [id ...]

For one property's check, on scratch copies of /repo (never /repo itself):
  * every seeded change under seeded/ that this check is recorded to report (meta.json verified.caught_by) must still be
    reported (exit 1)                                        -> "MISSED <id>" otherwise;
  * every behaviour-preserving patch of the corpora benign, benign2, benign3, benign4 must stay silent (exit 0)
                                                             -> "ALARM <id> <violated lines>" otherwise.
Fact files are cached by tree hash (/verif/.cache), so a patch is compiled once however often it is re-checked.
Exit status 0 iff nothing is MISSED and nothing ALARMs."""
import glob, json, os, re, shutil, subprocess, sys, tempfile
from concurrent.futures import ThreadPoolExecutor

args = sys.argv[1:]
prop = args.pop(0)
jobs = 8
do_seeds = do_benign = True
corpora = ["benign", "benign2", "benign3", "benign4"]
if "-j" in args:
    i = args.index("-j"); jobs = int(args[i + 1]); del args[i:i + 2]
if "--seeds" in args:
    args.remove("--seeds"); do_benign = False
if "--benign" in args:
    args.remove("--benign"); do_seeds = False
if "--corpus" in args:
    i = args.index("--corpus"); corpora = [args[i + 1]]; del args[i:i + 2]; do_seeds = False
verbose = "-v" in args
if verbose:
    args.remove("-v")
only = set(args)
ENV = dict(os.environ, VERIF_BUILD_SLOTS=os.environ.get("VERIF_BUILD_SLOTS", "8"), VERIF_CACHE_KEEP=os.environ.get("VERIF_CACHE_KEEP", "600"))


def run(patch):
    t = tempfile.mkdtemp(prefix="verif-mc-")
    try:
        for x in ("src", "Cargo.toml", "Cargo.lock"):
            s = os.path.join("/repo", x)
            (shutil.copytree if os.path.isdir(s) else shutil.copy)(s, os.path.join(t, x))
        r = subprocess.run(["patch", "-s", "-p1", "-d", t, "-i", patch], capture_output=True, text=True)
        if r.returncode != 0:
            return None, ["patch does not apply"]
        r = subprocess.run(["/verif/check", prop], env=dict(ENV, VERIF_REPO=t, VERIF_EVIDENCE=t + "/.verif-evidence"), capture_output=True, text=True)
        v = [l.strip()[:300] for l in r.stdout.splitlines() if l.strip().startswith("violated:") or l.startswith("ERROR") or "Traceback" in l]
        return r.returncode, v
    finally:
        shutil.rmtree(t, ignore_errors=True)


todo = []
if do_seeds:
    for d in sorted(glob.glob("/verif/seeded/C*-*")):
        name = os.path.basename(d)
        if only and name not in only:
            continue
        try:
            meta = json.load(open(d + "/meta.json"))
        except Exception:
            continue
        if prop in (meta.get("verified", {}).get("caught_by") or {}):
            todo.append(("seed", name, d + "/patch.diff"))
if do_benign:
    for c in corpora:
        for d in sorted(glob.glob("/verif/%s/C*-*" % c)):
            name = "%s/%s" % (c, os.path.basename(d))
            if only and name not in only and os.path.basename(d) not in only:
                continue
            todo.append(("benign", name, d + "/patch.diff"))
bad = 0
with ThreadPoolExecutor(jobs) as ex:
    for (kind, name, patch), (rc, v) in zip(todo, ex.map(lambda x: run(x[2]), todo)):
        if rc is None:
            print("SKIP   %s (%s)" % (name, v[0]), flush=True)
        elif kind == "seed" and rc != 1:
            bad += 1
            print("MISSED %s (exit %s) %s" % (name, rc, v[:2]), flush=True)
        elif kind == "benign" and rc != 0:
            bad += 1
            print("ALARM  %s (exit %s)" % (name, rc), flush=True)
            for x in v[:8]:
                print("         " + x, flush=True)
        elif verbose:
            print("ok     %s" % name, flush=True)
print("%s: %d patches checked, %d problem(s)" % (prop, len(todo), bad))
sys.exit(1 if bad else 0)
