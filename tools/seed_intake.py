#!/usr/bin/env python3
"""Intake of a sub-agent seeded change: tools/seed_intake.py <PID> <k> [--checks C01,C02]
Confirms in the agent's scratch worktree (/tmp/seed-<PID>) that (a) the patch applies to HEAD, (b) the pinned test
suite still passes with it, (c) the demonstration passes without and fails with it; stores everything under
/verif/seeded/<PID>-<k>/ and records which of our checks report it (run on a scratch copy, /repo untouched)."""
import json, os, subprocess, sys, shutil
pid, k = sys.argv[1], sys.argv[2]
checks = None
if "--checks" in sys.argv:
    checks = sys.argv[sys.argv.index("--checks") + 1].split(",")
rnd = 1
if "--round" in sys.argv:
    rnd = int(sys.argv[sys.argv.index("--round") + 1])
wt = "/tmp/seed-%s" % pid if rnd == 1 else "/tmp/seed%d-%s" % (rnd, pid)
sd = os.path.join(wt, "seed%s" % k)
out = "/verif/seeded/%s-%s" % (pid, k if rnd == 1 else str(int(k) + 2 + 3 * (rnd - 2)) if rnd < 6 else str(int(k) + 13 + 2 * (rnd - 6)))
env = dict(os.environ, CARGO_TARGET_DIR=wt + "/target", CARGO_NET_OFFLINE="true")


def sh(cmd, **kw):
    r = subprocess.run(cmd, shell=True, cwd=wt, env=env, capture_output=True, text=True, **kw)
    return r.returncode, (r.stdout + r.stderr)


def clean():
    sh("git checkout -- . ; git clean -fdq -e seed1 -e seed2 -e seed3 -e target -e TASK.md")


res = {"property": pid, "seed": k}
clean()
rc, o = sh("git apply --check %s/patch.diff" % sd)
res["patch_applies"] = rc == 0
demo_cmd = open(os.path.join(sd, "demo.sh")).read().strip().splitlines()[-1]
# demo without the patch
sh("git apply %s/demo.diff" % sd)
rc, o = sh(demo_cmd, timeout=3000)
res["demo_without_patch_passes"] = rc == 0
# with the patch
sh("git apply %s/patch.diff" % sd)
rc, o = sh(demo_cmd, timeout=3000)
res["demo_with_patch_fails"] = rc != 0
res["demo_tail"] = o[-600:]
# the pinned suite with the patch only
clean()
sh("git apply %s/patch.diff" % sd)
rc, o = sh("cargo test --workspace --no-fail-fast --offline 2>&1 | grep -E '^test result|FAILED|error' | head", timeout=3000)
res["suite_with_patch"] = o.strip().splitlines()[:4]
res["suite_passes"] = "35 passed; 0 failed" in o
if "--allfeat" in sys.argv:
    rc, o = sh("cargo test --all-features --offline 2>&1 | grep -E '^test result|FAILED|^error' | head", timeout=3000)
    res["all_features_suite"] = o.strip().splitlines()[:4]
    res["all_features_suite_passes"] = "224 passed; 0 failed" in o and "FAILED" not in o and "error" not in o
clean()
sh("git clean -fdq -e seed1 -e seed2 -e seed3 -e target -e TASK.md tests")
os.makedirs(out, exist_ok=True)
for fn in ("patch.diff", "demo.diff", "demo.sh", "meta.json"):
    shutil.copy(os.path.join(sd, fn), os.path.join(out, fn))
# our checks
meta = json.load(open(os.path.join(out, "meta.json")))
todo = checks or ["C%02d" % i for i in range(1, 18)]
r = subprocess.run(["/verif/tools/mut", ",".join(todo), "--patch", os.path.join(out, "patch.diff")], capture_output=True, text=True)
caught = {}
cur = None
for line in r.stdout.splitlines():
    if line.startswith("[C"):
        cur = line[1:4]
        if "exit=1" in line:
            caught[cur] = []
        elif "exit=0" not in line:
            caught[cur] = ["ERROR " + line]
    elif cur in caught and line.strip().startswith("violated"):
        caught[cur].append(line.strip()[:260])
res["checks_run"] = todo
res["caught_by"] = caught
meta["verified"] = res
json.dump(meta, open(os.path.join(out, "meta.json"), "w"), indent=1, ensure_ascii=False)
print(json.dumps(res, indent=1)[:3000])
